#!/usr/bin/env python3
"""Regenerates /verif/MANIFEST.json from the table below. A property is registered as a check only
when its rule set exists in the checker (vischeck -list) AND it is listed in CLAIMED."""
import json, subprocess, sys
props=[json.loads(l) for l in open('/verif/properties.jsonl')]
listed=set(l.split()[0] for l in subprocess.run(['/verif/bin/vischeck','-list'],capture_output=True,text=True).stdout.splitlines() if l.strip())
TECH="static analysis over go/types + go/ssa of /repo's current tree: "
CLAIMED={
 'C02':("typestate abstract interpretation of the row-grouping loop (rows in page, buffer emptiness, separator/emit/cursor pending, page counter minus pages emitted), CFG cuts on the browse-entry flag protocol with normalised last/first-page comparisons, zone bounds of the page cursor and menu functions, separator and result plumbing by value flow",
        "Decides structural necessary conditions of pagination for all row contents (including empty rows), sizes and indices: a page index past the end is an error; 'next'/'previous' are offered exactly off the last/first page; in the grouping loop a separator lies between any two rows of a page, every page holding rows is emitted and counted, and each page separator gets exactly one cursor at the offset behind it; cursor 0 precedes the grouping, the menu's page count and the sink value are the grouping's results, the lookup cuts at the first separator including offset 0, separators agree. The partition relation itself and everything depending on the capacity arithmetic (where breaks fall, whether a row fits a fresh page) are value-level and not decided. One defect found and repaired (empty rows lost)."),
 'C14':("table extraction and comparison (opcode maps, switch case sets, decoder success-path argument signatures vs every NewLine call site in the repository and the ParseHandler callback types), zone bounds of the primitive decoders, encoder limit guards incl. range proofs of length-byte narrowing",
        "Decides format agreement between the separate codecs on finite tables: opcode tables inverse and complete, per-opcode argument signatures identical at the decoder, at every encoder call site and in the disassembler callbacks, primitive framing limits agree and cannot wrap, the integer encoder keeps low-order bytes. Round-trip equality of values over the full domains is value-level and not decided."),
 'C16':("backward value flow from symbol writers to numeric grammar captures through int-to-string conversions; extraction of the batch expansion from SSA and comparison with the documented table; opcode-identity flow",
        "Decides three structural clauses of assembler fidelity: no numeric re-rendering of selectors (two known findings), batch expansion identical to the documented table with source order preserved, opcode taken from the line's mnemonic. Per-program translation fidelity in general is not decided."),
 'C17':("acceptance edges (format and byte-length tests on the Exec parameter) as CFG cuts before every effectful instruction of Exec; execd/initd gates in Flush and Finish",
        "Decides for every input and every position in a history that nothing with effects is reachable in Exec before both refusal points were passed on their success side, that refused bytes flow only into validators and logs, that output needs a prior execution and that a refused request cannot cause a save. Transcript equality of the two histories is not decided."),
 'C18':("origin analysis of every context argument, injection-before-use cuts with ordering against state establishment, key/type agreement of context writers and readers, translation-key production in ToKey",
        "Decides the plumbing of the language selection on every path: contexts are never replaced, the VM/renderer context carries the language and is injected after the (possibly persisted) state is loaded, writers and readers agree on key and type, the selection is persisted, ToKey offers the translation key whenever a language is selected, unknown codes cannot change it. Behaviour of third-party resources is not decided."),
 'C19':("class-hierarchy reachability from the request path to writes of package-level state; library-wide field-based taint from borrowed byte slices to in-place write sinks",
        "Removes the schedule quantifier by an ownership argument decided for all interleavings at once: no function reachable from the request path writes process-wide state, and slices borrowed from the shared immutable application data are never written in place. Application-supplied back ends and the race detector's run-time view are outside."),
 'C20':("CFG cuts for the graceful-end condition, reset-on-exit, TERMINATE test before recording code, pairing in the reset loop, who-may-clear TERMINATE, flag-byte write classes",
        "Decides the structural clauses of session end and termination: out-of-code detection, the graceful-end condition, reset on every exiting path of Flush, restart point injection, TERMINATE checked before a run is classified, client flags kept. One known finding (pre-VM hook clears TERMINATE). Outputs over histories are not decided."),
 'C10':("per-backend CFG cuts (CheckPut gate, fallback lookup before not-found), store value classes for seal/lock, key-derivation flow to ToKey, constant masks vs DATATYPE table",
        "Decides the agreement clauses for each db.Db implementation of the library on every path: lock refusal before any mutation, seal monotone, one key derivation with default-language fallback, recognisable not-found, documented type predicates, resource refuses unlocked stores, context setters always take effect. A listing leaves the handle's selections alone (one defect found by this clause and repaired). Map semantics over operation histories and the contents of a listing are not decided."),
 'C11':("backward value flow from storage primitives to LookupKey fields (re-slicing, non-injective transformations), separator and path hygiene checks",
        "Decides structural necessary conditions of an injective key encoding: the type byte is never stripped, keys always come from ToKey, only injective transformations lie between ToKey and the file name, setters always take effect. Seven known findings (legacy fallback name, unsanitised separator, raw key joined to the directory) are reported as such. Injectivity over all strings is not decided."),
 'C12':("protocol conformance of the Put path (allowed file operations, argument flow of Rename, ordering cuts), who-may-rename, IsNotFound guard before the fallback Save",
        "Decides the shape of the write protocol on every path, which makes every crash point harmless: the record path is never opened for writing, the temporary file is complete and closed before the rename, success implies rename, nothing else renames onto records, and a load error other than not-found is never answered by overwriting. Atomicity of rename(2) is trusted."),
 'C13':("typestate of the transaction handle on the CFG (begin -> exactly one end on every path incl. error paths), error flow of commit, nil-guard and mode-flag ordering",
        "Decides transaction hygiene on all paths, including the error paths no test takes: every begun transaction is ended once, commit errors reach the caller, local transactions are ended before every return, Abort/Stop/Close are nil-safe, explicit mode is entered only after a successful begin. Values returned after a fault are not decided."),
 'C01':("audited-return set (value identity with the argument of Sizer.Check on its ok edge), client-sink check, single-writer wiring of the limit, shape of the audit comparison",
        "Decides the bound itself for every size, template, content and history: every page string handed out is the very value that passed the final size audit (nothing concatenated after it), the audit compares the byte length with the configured field, and the limit is wired from Config.OutputSize into every reset of the renderer. It does not decide that content which could fit is never refused. One known finding (exit text written unaudited)."),
 'C03':("CFG cuts on the INCMP handler (gates, deciding comparison, IndexError edge), who-may-reset, value identity of the recorded input",
        "Decides the gating clauses of input routing on every path: match recorded before the move, INMATCH only cleared on resume, the move only behind selector==input or the wildcard, fallthrough to the catch node with the invalid-input message, refused 'previous' counts as no match, the recorded input is the client's bytes. One known finding (second match before the next HALT, pinned by TestRunReturn). Transcript equivalence with a reference router is not decided."),
 'C07':("field read/write effect sets over the CHA-reachable request path, automatic config/state classification of renderer fields, forward must-write analysis with callee summaries over the resume block",
        "Decides that nothing outside the persisted snapshot carries information across a request boundary: every live State/Cache field is in the CBOR snapshot (or in a checked exception table), and every request-state field of the unpersisted renderer objects that is read on the run/render path is re-initialised on every path through the resume block. Output equality for all programs additionally needs deterministic external code and is not decided. One known finding (the pre-VM hook's Down/Up clear the page index at every engine initialisation)."),
 'C08':("classification of CHA-reachable explicit panics, Down/Push-Up/Pop pairing, zone bounds proofs of the page-cursor/menu/input-validation functions, BrowseError handling, cache accounting rules, range proofs of every lossy integer narrowing on the request path",
        "Decides the named crash and consistency mechanisms: reachable explicit panics are classified (a new one is reported), stack and cache move in lockstep on every path, browsing out of range is an error (bounds proved), input validation cannot index out of range, accounting rules hold. Implicit panics in the rest of the reachable code are not decided. One known finding (CROAK)."),
 'C04':("dispatch-table extraction, per-method store value classes, who-may-write, must-pass-through on the CFG",
        "Decides for every history, by induction on its steps, that each navigation step applies exactly the documented update: the dispatcher's case table, the movers' store signatures, single-writer and rewind-exit clauses are structural necessary conditions checked on all paths of the SSA. It does not run go-vise; equality with the table over histories is the stated inductive argument, not an enumeration."),
 'C05':("must-pass-through (edge cuts) on handler CFGs, operand identity by value flow, pairing of Down/Push and Up/Pop, zone facts for the empty-value clause",
        "Decides the structural clauses behind symbol lifetime on every path: load-once guard, operand flow, scope pairing, renderer reset after every move, reload sequence, empty-result handling. History-level 'gone after ascent' is not decided."),
 'C06':("edge-dominance of the write filter, interval analysis of IsWriteableFlag vs the documented table, who-may-write, TERMINATE gate as a CFG cut",
        "Decides for all flag indices and results that dynamic flag writes are filtered, that the filter accepts exactly the documented set, that no instruction is dispatched without passing the TERMINATE gate, and that CATCH/CROAK act exactly on MatchFlag(sig,mode). One known finding (pre-VM hook clears TERMINATE)."),
 'C09':("per-method effect classification of stores to the cache's accounting fields, guard cuts on success paths, rollback-before-error-return, range proof of the LOAD limit conversion",
        "Decides the inductive step of the accounting invariant for every operation and argument: limits compared without truncation, every success path behind the limit/capacity/uniqueness guards, every accounting update of the right value class, every rejected operation restored, scope release complete. The numeric sum invariant over histories follows by induction and is not enumerated."),
 'C15':("difference-constraint (zone) bounds proof of every byte index/slice in package vm, error value flow, switch totality, success-path argument signatures, range proofs of operand narrowing",
        "Closest to a proof in this suite: every index, slice and length-preconditioned call on bytecode in package vm is proved in bounds for all byte strings from dominating guards; every decoder error is shown to flow to the caller with results used only behind err==nil; dispatch totality, opcode and integer-width range, and equal argument sequences on all success paths are decided. Callbacks supplied by callers are outside."),
}
NA={
}
checks=[];na=[]
for p in props:
    i=p['id']
    if i in CLAIMED and i in listed:
        tech,text=CLAIMED[i]
        checks.append({"property_id":i,
          "quick_cmd":"bin/vischeck -p %s -tier quick"%i,
          "thorough_cmd":"bin/vischeck -p %s -tier thorough"%i,
          "evidence_file":"/verif/evidence/%s.json"%i,
          "replay_cmd_template":"bin/vischeck -replay {path}",
          "engine":"vischeck",
          "level_claimed":{"category":"other","text":text+" Level 'other': structural necessary conditions decided for all inputs by static analysis; the behavioural property as a whole is not asserted.","design_ref":"DESIGN.md section 7, "+i},
          "level_note":"Trusted base: go/types and go/ssa (x/tools v0.29.0), CHA call graph over the library packages, the rule implementations in /verif/checker; third-party libraries are trusted at their API. The check reads /repo's current working tree on every run and never executes go-vise.",
          "technique":TECH+tech})
    elif i in NA:
        na.append({"property_id":i,"reason":NA[i]})
    else:
        na.append({"property_id":i,"reason":"check not yet registered in this round (rule set designed in DESIGN.md section 7; being built)"})
m={"version":1,
 "setup_cmd":"cd /verif/checker && env -u GOWORK GOFLAGS=-mod=mod GOPROXY=off GOSUMDB=off GOTOOLCHAIN=local go build -o /verif/bin/vischeck ./cmd/vischeck",
 "hooks":{"guard":"verif","enable":"none: the static checker needs no hooks or instrumentation; no file in /repo carries the tag","baseline_off_cmd":"/verif/scripts/baseline.sh /repo","source_commits":[],"add_only":True},
 "engines":[{"name":"vischeck","path":"/verif/checker","serves_properties":[c['property_id'] for c in checks],"kind_free_text":"custom static analyzer (Go): go/packages + go/types + go/ssa + CHA call graph; engines: CFG cut/must-pass-through, value flow, field effect classes, zone (difference-constraint) bounds prover, table extraction incl. doc/texinfo tables"}],
 "checks":checks,
 "notes":"All checks are static analysis of /repo's current source (no execution). Exit 0 = all obligations discharged or only known findings; 1 = VIOLATION; 2 = cannot decide (unresolved anchor, type error in a library package, vacuous rule). Known findings: /verif/known_findings.json.",
 "not_applicable":na}
json.dump(m,open('/verif/MANIFEST.json','w'),indent=1)
print("checks:",[c['property_id'] for c in checks]," n/a:",[x['property_id'] for x in na])
