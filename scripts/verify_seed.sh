#!/bin/bash
# usage: verify_seed.sh <seed-dir containing patch.diff, demo_test.go>
# Confirms in a scratch git worktree of /repo (removed afterwards) that the change (1) applies,
# (2) builds, (3) keeps the pinned suite green, and that the demonstration (4) FAILS with the change
# and (5) PASSES without it. Prints one RESULT line.
set -u
export GOFLAGS=-mod=mod GOPROXY=off GOSUMDB=off GOTOOLCHAIN=local; unset GOWORK
D=$(cd "$1" && pwd)
WT=$(mktemp -d /tmp/vseed.XXXXXX)
cleanup(){ git -C /repo worktree remove --force "$WT" >/dev/null 2>&1; rm -rf "$WT"; }
trap cleanup EXIT
rmdir "$WT"; git -C /repo worktree add -q --detach "$WT" HEAD || { echo "RESULT $D worktree-failed"; exit 2; }
PKG=$(head -1 "$D/demo_test.go" | sed -n 's#^// *place in: *\([A-Za-z0-9_/.-]*\).*#\1#p'); PKG=${PKG%/}
[ -z "$PKG" ] && { echo "RESULT $D no-place-comment"; exit 2; }
TESTS=$(grep -o '^func Test[A-Za-z0-9_]*' "$D/demo_test.go" | sed 's/func //' | paste -sd'|')
cp "$D/demo_test.go" "$WT/$PKG/zz_seed_demo_test.go"
(cd "$WT" && go test -vet=off -count=1 -run "^($TESTS)\$" ./$PKG >/tmp/vs.$$.clean 2>&1); CLEAN=$?
git -C "$WT" apply "$D/patch.diff" || { echo "RESULT $D patch-does-not-apply"; exit 2; }
(cd "$WT" && go build ./asm ./cache ./db ./db/fs ./db/mem ./db/postgres ./engine ./lang ./logging ./persist ./render ./resource ./state ./vm ./debug ./dev/asm ./dev/disasm ./examples/first 2>/tmp/vs.$$.build); BUILD=$?
(cd "$WT" && go test -vet=off -count=1 -run "^($TESTS)\$" ./$PKG >/tmp/vs.$$.mut 2>&1); MUT=$?
rm -f "$WT/$PKG/zz_seed_demo_test.go"
/verif/scripts/baseline.sh "$WT" > /tmp/vs.$$.suite 2>&1; SUITE=$?
echo "RESULT $D build=$BUILD suite=$SUITE($(head -1 /tmp/vs.$$.suite)) demo_without_change=$CLEAN(want 0) demo_with_change=$MUT(want !=0)"
[ $CLEAN -ne 0 ] && tail -5 /tmp/vs.$$.clean
[ $MUT -eq 0 ] && tail -5 /tmp/vs.$$.mut
[ $SUITE -ne 0 ] && tail -8 /tmp/vs.$$.suite
rm -f /tmp/vs.$$.*
[ $BUILD -eq 0 ] && [ $SUITE -eq 0 ] && [ $CLEAN -eq 0 ] && [ $MUT -ne 0 ]
