#!/usr/bin/env python3
"""usage: run_benign_patches.py <props,comma-separated> [filter]
Applies every patch of /verif/selftest/benign_patches to a scratch copy of /repo (removed afterwards) and runs the given quick
checks: a behaviour-preserving refactoring must leave every check silent (exit 0)."""
import os,json,subprocess,tempfile,shutil,glob,concurrent.futures,sys
props=sys.argv[1].split(',')
pats=sorted(glob.glob('/verif/selftest/benign_patches/*.diff'))
flt=sys.argv[2] if len(sys.argv)>2 else ''
def run(pf):
    sid=os.path.basename(pf)
    S=tempfile.mkdtemp(prefix='variant.',dir='/tmp')
    try:
        os.makedirs(S+'/verif'); subprocess.check_call(['rsync','-a','--exclude','.git','/repo/',S+'/repo/'])
        shutil.copy('/verif/known_findings.json',S+'/verif/'); open(S+'/verif/MANIFEST.json','w').write('{}')
        if subprocess.run(['patch','-p1','-s','-i',pf],cwd=S+'/repo',capture_output=True).returncode!=0: return sid,'PATCH-FAILED'
        bad=[]
        for p in props:
            r=subprocess.run(['/verif/bin/vischeck','-p',p,'-repo',S+'/repo','-verif',S+'/verif'],capture_output=True,text=True)
            if r.returncode!=0:
                bad.append(p+' exit %d: '%r.returncode+' | '.join(l[:300] for l in r.stdout.splitlines() if l.startswith(('VIOLATED','UNDECIDED','VACUOUS','ERROR')))[:1200])
        return sid,bad
    finally: shutil.rmtree(S,ignore_errors=True)
with concurrent.futures.ThreadPoolExecutor(max_workers=8) as ex:
    for sid,bad in ex.map(run,[p for p in pats if flt in p]):
        print(sid,'silent' if not bad else bad)
