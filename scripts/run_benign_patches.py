#!/usr/bin/env python3
"""usage: run_benign_patches.py [filter]
Applies every patch of /verif/selftest/benign_patches to a scratch copy of /repo (removed afterwards) and runs all
20 quick checks on it (vischeck -matrix): a behaviour-preserving refactoring must leave every check silent (exit 0)."""
import os,sys,glob,concurrent.futures
sys.path.insert(0,os.path.dirname(os.path.abspath(__file__)))
from matrixrun import run_matrix
pats=sorted(glob.glob('/verif/selftest/benign_patches/*.diff'))
flt=sys.argv[1] if len(sys.argv)>1 else ''
def run(pf):
    res,rules,lines=run_matrix(pf)
    sid=os.path.basename(pf)
    if res is None: return sid,'PATCH-FAILED'
    bad=[p+' exit %d: '%rc+' | '.join(lines[p])[:1200] for p,rc in sorted(res.items()) if rc!=0]
    return sid,bad
n=0
with concurrent.futures.ThreadPoolExecutor(max_workers=6) as ex:
    for sid,bad in ex.map(run,[p for p in pats if flt in p]):
        n+=1
        print(sid,'silent' if not bad else bad,flush=True)
print('patches:',n)
