#!/bin/bash
# usage: try_patch.sh <patch.diff | -R commit | none> <prop> [<prop>...]
# Copies /repo's working tree to a scratch directory outside /repo and /verif, applies the patch
# (or reverse-applies a commit), runs the quick checks of the given properties against the copy
# (evidence and violation files go to a scratch verif dir, never to /verif), and removes the copy.
set -u
P=$1; shift
S=$(mktemp -d /tmp/variant.XXXXXX)
trap 'rm -rf "$S"' EXIT
mkdir -p "$S/repo" "$S/verif"
rsync -a --exclude .git /repo/ "$S/repo/"
cp /verif/known_findings.json "$S/verif/" 2>/dev/null
touch "$S/verif/MANIFEST.json"
if [ "$P" = "-R" ]; then
  C=$1; shift
  git -C /repo show "$C" | (cd "$S/repo" && patch -R -p1 -s) || { echo "reverse patch failed"; exit 3; }
elif [ "$P" != "none" ]; then
  (cd "$S/repo" && patch -p1 -s < "$P") || { echo "patch failed"; exit 3; }
fi
rc=0
for prop in "$@"; do
  /verif/bin/vischeck -p "$prop" -repo "$S/repo" -verif "$S/verif" | grep -E "^(==|VIOLATED|VIOLATION|KNOWN|UNDECIDED|VACUOUS|ERROR|   +[a-z])" | sed "s#$S/repo/##g; s#$S/verif#SCRATCH#g"
  r=${PIPESTATUS[0]}; echo "  -> $prop exit=$r"; [ $r -gt $rc ] && rc=$r
done
exit $rc
