#!/usr/bin/env python3
"""usage: run_own_mutants.py [checker-binary]
Applies every single-edit mutant of /verif/selftest/own_breaking.json to a scratch copy of /repo (removed afterwards) and runs
the quick check of its property: the expected rule must report it."""
import json,subprocess,tempfile,shutil,os,sys
B=sys.argv[1] if len(sys.argv)>1 else '/verif/bin/vischeck'
for m in json.load(open('/verif/selftest/own_breaking.json')):
    S=tempfile.mkdtemp(prefix='variant.',dir='/tmp')
    try:
        os.makedirs(S+'/verif'); subprocess.check_call(['rsync','-a','--exclude','.git','/repo/',S+'/repo/'])
        shutil.copy('/verif/known_findings.json',S+'/verif/')
        ok=True
        for e in m['edits']:
            p=S+'/repo/'+e['file']; s=open(p).read()
            if e['old'] not in s: print(m['id'],'ANCHOR NOT FOUND'); ok=False; break
            open(p,'w').write(s.replace(e['old'],e['new'],1))
        if not ok: continue
        env=dict(os.environ,GOFLAGS='-mod=mod',GOPROXY='off',GOSUMDB='off',GOTOOLCHAIN='local'); env.pop('GOWORK',None)
        b=subprocess.run('go build ./cache ./db ./state ./render ./vm ./engine',shell=True,cwd=S+'/repo',env=env,capture_output=True,text=True)
        if b.returncode!=0: print(m['id'],'DOES NOT BUILD',b.stderr[:300]); continue
        r=subprocess.run([B,'-p',m['property'],'-repo',S+'/repo','-verif',S+'/verif'],capture_output=True,text=True)
        rules=sorted(set(l.split()[1] for l in r.stdout.splitlines() if l.startswith('VIOLATED')))
        print(m['id'],'exit',r.returncode,rules,'EXPECTED' if m['expect'] in rules else 'MISSED (expect %s)'%m['expect'])
        if m['expect'] not in rules:
            for l in r.stdout.splitlines():
                if l.startswith(('VIOLATED','UNDEC','VACU')): print('    ',l[:300])
    finally: shutil.rmtree(S,ignore_errors=True)
