#!/usr/bin/env python3
"""Runs every registered quick check against every seeded change under /verif/seeded (each applied to a
scratch copy of /repo that is removed afterwards) and prints / writes the detection matrix. One
checker process per change (vischeck -matrix: one load of the variant, all rule sets)."""
import sys,os,json,glob,concurrent.futures
sys.path.insert(0,os.path.dirname(os.path.abspath(__file__)))
from matrixrun import run_matrix
seeds=sorted(glob.glob('/verif/seeded/*/patch.diff'))
flt=sys.argv[1] if len(sys.argv)>1 else ''
def run(pf):
    sid=os.path.basename(os.path.dirname(pf))
    return (sid,)+run_matrix(pf)
out={}
with concurrent.futures.ThreadPoolExecutor(max_workers=6) as ex:
    for sid,res,rules,lines in ex.map(run,[s for s in seeds if flt in s]):
        own=sid.split('-')[0]
        if res is None:
            print(sid,'PATCH FAILED',flush=True); continue
        caught=[p for p,rc in res.items() if rc==1]
        other=[p for p,rc in res.items() if rc not in (0,1)]
        out[sid]={'caught_by':{p:rules[p] for p in caught},'exit2':other}
        print(f"{sid}: own check {'CATCHES' if own in caught else 'MISSES '}; caught by {', '.join(p+str(rules[p]) for p in caught) or '-'}"+(f"; exit2: {other}" if other else ''),flush=True)
if flt:
    try:
        old=json.load(open('/verif/seeded/MATRIX.json'))
    except Exception:
        old={}
    old.update(out); out=old
json.dump(dict(sorted(out.items())),open('/verif/seeded/MATRIX.json','w'),indent=1)
miss=[s for s,v in out.items() if s.split('-')[0] not in v['caught_by']]
print("seeds:",len(out)," missed by own check:",miss)
