#!/usr/bin/env python3
"""Runs every registered quick check against every seeded change under /verif/seeded (each applied to a
scratch copy of /repo that is removed afterwards) and prints / writes the detection matrix."""
import sys,os,json,subprocess,tempfile,shutil,glob,concurrent.futures
man=json.load(open('/verif/MANIFEST.json'))
props=[c['property_id'] for c in man['checks']]
seeds=sorted(glob.glob('/verif/seeded/*/patch.diff'))
flt=sys.argv[1] if len(sys.argv)>1 else ''
def run(pf):
    sid=os.path.basename(os.path.dirname(pf))
    S=tempfile.mkdtemp(prefix='variant.',dir='/tmp')
    try:
        os.makedirs(S+'/verif')
        subprocess.check_call(['rsync','-a','--exclude','.git','/repo/',S+'/repo/'])
        shutil.copy('/verif/known_findings.json',S+'/verif/'); open(S+'/verif/MANIFEST.json','w').write('{}')
        if subprocess.run(['patch','-p1','-s','-i',pf],cwd=S+'/repo').returncode!=0: return sid,{'_':'patch failed'},{}
        res={};rules={}
        for p in props:
            r=subprocess.run(['/verif/bin/vischeck','-p',p,'-repo',S+'/repo','-verif',S+'/verif'],capture_output=True,text=True)
            res[p]=r.returncode
            rules[p]=sorted(set(l.split()[1] for l in r.stdout.splitlines() if l.startswith('VIOLATED')))
        return sid,res,rules
    finally:
        shutil.rmtree(S,ignore_errors=True)
out={}
with concurrent.futures.ThreadPoolExecutor(max_workers=6) as ex:
    for sid,res,rules in ex.map(run,[s for s in seeds if flt in s]):
        own=sid.split('-')[0]
        caught=[p for p,rc in res.items() if rc==1]
        other=[p for p,rc in res.items() if rc not in (0,1)]
        out[sid]={'caught_by':{p:rules[p] for p in caught},'exit2':other}
        print(f"{sid}: own check {'CATCHES' if own in caught else 'MISSES '}; caught by {', '.join(p+str(rules[p]) for p in caught) or '-'}"+(f"; exit2: {other}" if other else ''))
if flt:
    try:
        old=json.load(open('/verif/seeded/MATRIX.json'))
    except Exception:
        old={}
    old.update(out); out=old
json.dump(dict(sorted(out.items())),open('/verif/seeded/MATRIX.json','w'),indent=1)
miss=[s for s,v in out.items() if s.split('-')[0] not in v['caught_by']]
print("seeds:",len(out)," missed by own check:",miss)
