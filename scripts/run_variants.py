#!/usr/bin/env python3
"""usage: run_variants.py <variants.json> [id-substring]
Applies each variant (exact text substitutions) to a scratch copy of /repo, checks that the library
builds and (for benign ones) that the tests of the touched packages still pass, then runs ALL
registered quick checks against the copy. Prints one line per variant:
   benign  : OK (all checks exit 0) or FALSE-ALARM <props with exit != 0>
"""
import sys,os,json,subprocess,tempfile,shutil,concurrent.futures
vs=json.load(open(sys.argv[1]))
flt=sys.argv[2] if len(sys.argv)>2 else ''
man=json.load(open('/verif/MANIFEST.json'))
props=[c['property_id'] for c in man['checks']]
env=dict(os.environ,GOFLAGS='-mod=mod',GOPROXY='off',GOSUMDB='off',GOTOOLCHAIN='local');env.pop('GOWORK',None)
LIB='./asm ./cache ./db ./db/fs ./db/mem ./db/postgres ./engine ./lang ./logging ./persist ./render ./resource ./state ./vm'
def run(v):
    S=tempfile.mkdtemp(prefix='variant.',dir='/tmp')
    try:
        os.makedirs(S+'/verif')
        subprocess.check_call(['rsync','-a','--exclude','.git','/repo/',S+'/repo/'])
        shutil.copy('/verif/known_findings.json',S+'/verif/'); open(S+'/verif/MANIFEST.json','w').write('{}')
        for e in v['edits']:
            p=S+'/repo/'+e['file']; s=open(p).read()
            if e['old'] not in s: return (v['id'],'SKIP anchor not found in '+e['file'],[])
            open(p,'w').write(s.replace(e['old'],e['new'],1))
        b=subprocess.run('gofmt -l . >/dev/null; go build '+LIB,shell=True,cwd=S+'/repo',env=env,capture_output=True,text=True)
        if b.returncode!=0: return (v['id'],'NOBUILD '+b.stderr[:300].replace('\n',' | '),[])
        pk=sorted(set('./'+os.path.dirname(e['file']) for e in v['edits']))
        t=subprocess.run('go test -vet=off -count=1 '+' '.join(pk)+' ./engine ./vm',shell=True,cwd=S+'/repo',env=env,capture_output=True,text=True)
        tests='tests-pass' if t.returncode==0 else 'TESTS-FAIL'
        bad=[]
        r=subprocess.run(['/verif/bin/vischeck','-matrix','-repo',S+'/repo','-verif',S+'/verif'],capture_output=True,text=True)
        cur=None;lines={};codes={}
        for l in r.stdout.splitlines():
            if l.startswith('##PROP '): cur=l.split()[1]; lines[cur]=[]
            elif l.startswith('##EXIT '): _,pp,c=l.split(); codes[pp]=int(c)
            elif cur and l.startswith(('VIOLATED','UNDECIDED','VACUOUS','ERROR')): lines[cur].append(l.replace(S+'/repo/','')[:230])
        for p in props:
            if codes.get(p,2)!=0: bad.append((p,codes.get(p,2),lines.get(p,[])))
        return (v['id'],tests,bad)
    finally:
        shutil.rmtree(S,ignore_errors=True)
sel=[v for v in vs if flt in v['id']]
with concurrent.futures.ThreadPoolExecutor(max_workers=6) as ex:
    for vid,status,bad in ex.map(run,sel):
        if not bad: print(f'{vid}: {status}: all {len(props)} checks exit 0' if not status.startswith(('SKIP','NOBUILD')) else f'{vid}: {status}')
        else:
            print(f'{vid}: {status}: ALARM from '+', '.join(f'{p}(exit {rc})' for p,rc,_ in bad))
            for p,rc,lines in bad:
                for l in lines[:4]: print('      ',p,l)
