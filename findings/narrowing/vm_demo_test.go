// place in: vm/
//
// Demonstration for "fix: LOAD refuses a size operand beyond 16 bits" (found by vischeck C08 R6 / C15 R9).
package vm

import (
	"context"
	"strings"
	"testing"

	"git.defalsify.org/vise.git/cache"
	"git.defalsify.org/vise.git/internal/resourcetest"
	"git.defalsify.org/vise.git/resource"
	"git.defalsify.org/vise.git/state"
)

// LOAD with a size operand of 65536: the limit wrapped to 0, which means "sink / unlimited".
func TestDemoLoadSizeWrap(t *testing.T) {
	ctx := context.Background()
	st := state.NewState(0)
	rs := resourcetest.NewTestResource()
	rs.AddLocalFunc("big", func(ctx context.Context, sym string, input []byte) (resource.Result, error) {
		return resource.Result{Content: strings.Repeat("x", 70000)}, nil
	})
	rs.Lock()
	ca := cache.NewCache()
	vm := NewVm(st, rs, ca, nil)
	st.Down("root")
	// LOAD big 65536 : opcode, symbol, 3-byte integer 0x010000
	b := []byte{0x00, byte(LOAD), 0x03, 'b', 'i', 'g', 0x03, 0x01, 0x00, 0x00}
	b = NewLine(b, HALT, nil, nil, nil)
	_, err := vm.Run(ctx, b)
	if err == nil {
		v, _ := ca.Get("big")
		t.Fatalf("LOAD with size 65536 accepted; a %d byte value was stored under a limit that wrapped to 'unlimited'", len(v))
	}
}
