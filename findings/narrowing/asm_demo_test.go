// place in: asm/
//
// Demonstration for "fix: menu batch instructions refuse arguments longer than 255 bytes" (found by vischeck C14 R3).
package asm

import (
	"bytes"
	"strings"
	"testing"

	"git.defalsify.org/vise.git/vm"
)

// a menu title longer than 255 bytes: the batch expansion writes a wrapped length byte.
func TestDemoLongMenuTitle(t *testing.T) {
	long := strings.Repeat("a", 300)
	src := "DOWN foo 1 " + long + "\n"
	w := bytes.NewBuffer(nil)
	_, err := Parse(src, w)
	if err != nil {
		return // refused: fine
	}
	code := w.Bytes()
	out, err := vm.NewParseHandler().WithDefaultHandlers().ToString(code)
	if err != nil {
		t.Fatalf("assembler accepted a 300 byte menu title and emitted bytecode that does not parse: %v", err)
	}
	if !strings.Contains(out, long) {
		t.Fatalf("assembler accepted a 300 byte menu title and emitted bytecode that decodes to something else")
	}
}
