// place in: state/
//
// Demonstration for "fix: flag byte count is not truncated to 8 bits" (found by vischeck C08 R6).
package state

import "testing"

// NewState with more than 2040 flags: the byte size wrapped in uint8 and SetFlag panicked for a flag in range.
func TestDemoManyFlags(t *testing.T) {
	st := NewState(2041)
	defer func() {
		if r := recover(); r != nil {
			t.Fatalf("flag 100 of %d is in range but SetFlag panicked: %v (flag bytes: %d)", st.FlagBitSize(), r, len(st.Flags))
		}
	}()
	st.SetFlag(100)
	if !st.GetFlag(100) {
		t.Fatalf("flag not set")
	}
}
