// place in: render/
//
// Demonstration of the defect repaired by "fix: count rows, not bytes, when grouping sink rows
// into pages" (found by vischeck C02 R3/R4). Fails on the parent of that commit, passes with it.
package render

import (
	"context"
	"strings"
	"testing"

	"git.defalsify.org/vise.git/cache"
	"git.defalsify.org/vise.git/internal/resourcetest"
	"git.defalsify.org/vise.git/resource"
)

// walks the pages of a node whose sink symbol holds content, and returns the sink rows shown.
func c02Walk(t *testing.T, content string, size uint32) []string {
	ctx := context.Background()
	rs := resourcetest.NewTestResource()
	rs.AddTemplate(ctx, "pages", "head\n{{.xyzzy}}")
	rs.AddLocalFunc("xyzzy", func(ctx context.Context, sym string, input []byte) (resource.Result, error) {
		return resource.Result{Content: content}, nil
	})
	rs.Lock()
	ca := cache.NewCache()
	ca.Push()
	ca.Add("xyzzy", content, 0)
	var shown []string
	for idx := uint16(0); idx < 20; idx++ {
		mn := NewMenu().WithBrowseConfig(DefaultBrowseConfig())
		pg := NewPage(ca, rs).WithSizer(NewSizer(size)).WithMenu(mn)
		mn.Put("1", "foo")
		pg.Map("xyzzy")
		r, err := pg.Render(ctx, "pages", idx)
		if err != nil {
			break
		}
		body := strings.TrimPrefix(r, "head\n")
		for _, l := range strings.Split(body, "\n") {
			if strings.HasPrefix(l, "1:foo") || strings.HasPrefix(l, "11:") || strings.HasPrefix(l, "22:") {
				continue
			}
			shown = append(shown, l)
		}
		if !strings.Contains(body, "11:") {
			break
		}
	}
	return shown
}

func TestC02EmptyRows(t *testing.T) {
	for _, c := range []struct {
		content string
		size    uint32
	}{
		{"\nbbbbb", 60},                  // leading empty row, single page
		{"aaa\n\ncccc\ndd\n\nfffff", 32}, // empty row right after a page break
		{"aaaaaaaa\nbbbbbbb\n", 36},      // trailing empty row after the last break
	} {
		for _, size := range []uint32{c.size} {
			got := strings.Join(c02Walk(t, c.content, size), "\n")
			if got != c.content {
				t.Errorf("size %d: rows shown %q, sink content %q", size, got, c.content)
			}
		}
	}
}
