// place in: asm/
package asm

import (
	"bytes"
	"strings"
	"testing"

	"git.defalsify.org/vise.git/vm"
)

// A symbol longer than 255 bytes cannot be encoded. The single-symbol path of parseOne dropped the
// writer's error and flushed the bare opcode: `MOVE <300 x a>` assembled to a MOVE without operand.
func TestFindingOverlongSymbolIsRefused(t *testing.T) {
	src := "MOVE " + strings.Repeat("a", 300) + "\n"
	b := bytes.NewBuffer(nil)
	_, err := Parse(src, b)
	if err == nil {
		t.Fatalf("over-long symbol accepted; emitted % x", b.Bytes())
	}
}

// Two menu blocks in one source: the second block must expand to its own lines only. MenuExit did
// not empty the menu processor, so the second expansion repeated the items of the first.
func TestFindingSecondMenuBlockHasOwnItemsOnly(t *testing.T) {
	src := "DOWN foo 1 to_foo\nMOVE bar\nDOWN baz 2 to_baz\n"
	b := bytes.NewBuffer(nil)
	_, err := Parse(src, b)
	if err != nil {
		t.Fatal(err)
	}
	ph := vm.NewParseHandler().WithDefaultHandlers()
	_, err = ph.ParseAll(b.Bytes())
	if err != nil {
		t.Fatal(err)
	}
	s, err := vm.NewParseHandler().WithDefaultHandlers().ToString(b.Bytes())
	if err != nil {
		t.Fatal(err)
	}
	n := strings.Count(s, "MOUT")
	if n != 2 {
		t.Fatalf("expected 2 MOUT (one per DOWN line), got %d:\n%s", n, s)
	}
}
