// place in: engine/
//
// Demonstration for the open finding C07 R9: with a first function set (WithFirst), every engine
// initialisation runs the pre-VM hook, which descends into a scratch node and comes back up - and
// State.Down / State.Up clear the page index. A long-lived engine initialises once; an engine
// created per request (persisted operation) does it on every request, so the page index a session
// had reached is lost before the client's "next" is applied and the walk never gets past page 1.
package engine

import (
	"bytes"
	"context"
	"testing"

	"git.defalsify.org/vise.git/cache"
	memdb "git.defalsify.org/vise.git/db/mem"
	"git.defalsify.org/vise.git/persist"
	"git.defalsify.org/vise.git/resource"
	"git.defalsify.org/vise.git/state"
)

func demoFirst(ctx context.Context, sym string, input []byte) (resource.Result, error) {
	return resource.Result{}, nil
}

func TestDemoFirstHookKeepsPageIndex(t *testing.T) {
	generateTestData(t)
	ctx := context.Background()
	cfg := Config{
		OutputSize: 68,
		Root:       "root",
		CacheSize:  1024,
		SessionId:  "pager",
	}
	inputs := []string{"", "1", "2", "00", "00"}

	// long-lived engine
	var long []uint16
	{
		st := state.NewState(0)
		rs := newTestWrapper(dataDir, st)
		en := NewEngine(cfg, rs).WithState(st).WithFirst(demoFirst)
		for _, in := range inputs {
			if _, err := en.Exec(ctx, []byte(in)); err != nil {
				t.Fatal(err)
			}
			if _, err := en.Flush(ctx, bytes.NewBuffer(nil)); err != nil {
				t.Fatal(err)
			}
			_, idx := st.Where()
			long = append(long, idx)
		}
	}

	// one engine per request over a persister
	var per []uint16
	{
		store := memdb.NewMemDb()
		if err := store.Connect(ctx, ""); err != nil {
			t.Fatal(err)
		}
		for _, in := range inputs {
			st := state.NewState(0)
			ca := cache.NewCache().WithCacheSize(1024)
			rs := newTestWrapper(dataDir, st)
			pe := persist.NewPersister(store).WithContent(st, ca)
			en := NewEngine(cfg, rs).WithPersister(pe).WithFirst(demoFirst)
			if _, err := en.Exec(ctx, []byte(in)); err != nil {
				t.Fatal(err)
			}
			if _, err := en.Flush(ctx, bytes.NewBuffer(nil)); err != nil {
				t.Fatal(err)
			}
			_, idx := pe.GetState().Where()
			per = append(per, idx)
			if err := en.Finish(ctx); err != nil {
				t.Fatal(err)
			}
		}
	}
	for i := range inputs {
		if long[i] != per[i] {
			t.Fatalf("after input %d (%q): page index %d on the long-lived engine, %d on per-request engines (all: %v vs %v)", i, inputs[i], long[i], per[i], long, per)
		}
	}
}
