// place in: db/postgres/
//
// Demonstration for C10 R11: before the repair (fix: commit in /repo) the Postgres Dump wiped the
// language selected on the store handle and never put it back, so the next read of a translated
// template/menu/static-load silently used the default-language key, unlike the filesystem back end.
package postgres

import (
	"context"
	"errors"
	"testing"

	pgxmock "github.com/pashagolub/pgxmock/v4"

	"git.defalsify.org/vise.git/db"
	"git.defalsify.org/vise.git/lang"
)

func TestDemoDumpKeepsLanguagePg(t *testing.T) {
	mock, err := pgxmock.NewPool()
	if err != nil {
		t.Fatal(err)
	}
	defer mock.Close()
	store := NewPgDb().WithConnection(mock).WithSchema("vvise")
	ctx := context.Background()
	ln, err := lang.LanguageFromCode("nor")
	if err != nil {
		t.Fatal(err)
	}
	store.SetPrefix(db.DATATYPE_TEMPLATE)
	store.SetLanguage(&ln)
	lk, err := store.ToKey(ctx, []byte("foo"))
	if err != nil {
		t.Fatal(err)
	}
	if lk.Translation == nil {
		t.Fatal("precondition: a translation key is expected while a language is selected")
	}

	mock.ExpectBegin()
	mock.ExpectQuery("SELECT key, value FROM vvise.kv_vise").WillReturnError(errors.New("listing fails, which does not matter here"))
	mock.ExpectRollback()
	store.Dump(ctx, []byte("foo"))

	lk, err = store.ToKey(ctx, []byte("foo"))
	if err != nil {
		t.Fatal(err)
	}
	if lk.Translation == nil {
		t.Fatal("the listing wiped the selected language: the next read of a translated entry uses the default-language key")
	}
}
